"""Per-property configuration of ./check (what is trusted, how cases are generated)."""

KERNEL = "Lean 4.33.0 kernel; axioms allowed: propext, Classical.choice, Quot.sound (audited per theorem, no native_decide)"
CORR = "correspondence harness /verif/harness (generators, canonicaliser, Lean driver line protocol, direct oracles)"
RUSTC = "rustc/std, the crates scrut depends on"

MATCHER_TB = [
    KERNEL,
    "the theorem statements in lean/ScrutModel/Props being a faithful reading of the property",
    CORR,
    "hand-written model lean/ScrutModel/Model/Diff.lean of DiffTool::diff (src/diff.rs:90-305), tied to the code by behavioural correspondence only",
    "rule matching is a parameter of the model (any Boolean matrix): the theorems hold for every rule implementation; that DiffTool consults rules only through Expectation::matches(line) is checked by correspondence",
    RUSTC,
]
MATCHER_RULE = (
    "cases = (quantifier vector, match matrix) driven through the real ExpectationMaker+DiffTool: exhaustive over all sizes of the scope via a registered `bits` rule, "
    "the small scope again via real regex alternations, plus seeded random cases (near-matching outputs through all real rule kinds; large random matrices). "
    "non-trivial = at least one optional or multiline expectation and at least one matching and one non-matching matrix cell; distinct = distinct model op line"
)
MATCHER_ASSUME = [
    "the Lean model is tied to the Rust code by differential execution on the enumerated/generated cases, not by translation",
    "Expectation::matches is deterministic and depends only on (expectation, line)",
]

PROPS = {
    "C01": {"rule": MATCHER_RULE, "trusted_base": MATCHER_TB, "assumptions": MATCHER_ASSUME},
    "C02": {"rule": MATCHER_RULE, "trusted_base": MATCHER_TB, "assumptions": MATCHER_ASSUME},
    "C03": {"rule": MATCHER_RULE, "trusted_base": MATCHER_TB, "assumptions": MATCHER_ASSUME},
}

EXEC_TB = [
    KERNEL,
    "the theorem statements in lean/ScrutModel/Props being a faithful reading of the property",
    CORR,
    "hand-written model lean/ScrutModel/Model/Exec.lean of TestCase::validate, StatefulExecutor::execute_all, BashScriptExecutor's skip handling, the result mapping of `scrut test` and main's exit status; tied to the code by correspondence (in-process for the library parts, end-to-end through the built binary with real bash for src/bin)",
    "output acceptance by expectations enters the model as a Boolean (it is the subject of C01-C03)",
    "time is a natural number of milliseconds in the model; wall-clock enforcement, process creation/killing and signal delivery are OS behaviour, exercised end-to-end only",
    "bash 5.2, subprocess crate, serde_json (to read `-r json`)",
    RUSTC,
]
EXEC_RULE = (
    "(1) exhaustive decision table of TestCase::validate (status x expected code x stream x acceptance); (2) the real StatefulExecutor with a scripted Runner: every status sequence "
    "over {0,1,80,7,timeout,skipped,detached,unknown} up to length 3 (thorough 4) x document limit {absent,0,2s,60s} with seeded per-test fields, comparing result, outputs and the limit handed to each runner call; "
    "(3) seeded end-to-end runs of the built binary over 1-3 Markdown/Cram documents whose tests pass/fail on output/fail on code/skip/time out/are killed/detach, comparing `-r json` kinds, exit status, execution order (marker file) and TMPDIR leftovers; "
    "(4, C14 and thorough) wall-clock documents. non-trivial = at least two test cases; distinct = distinct model op line"
)
EXEC_ASSUME = [
    "the Lean model is tied to the Rust code by differential execution, not by translation",
    "end-to-end timing cases use generous margins (limits 300 ms - 1 s against sleeps of 2.5 - 3 s)",
]
for _p in ("C05", "C14", "C15", "C20"):
    PROPS[_p] = {"rule": EXEC_RULE, "trusted_base": EXEC_TB, "assumptions": EXEC_ASSUME, "needs_bin": True}

CONFIG_TB = [
    KERNEL,
    "the theorem statements in lean/ScrutModel/Props being a faithful reading of the property",
    CORR,
    "hand-written model lean/ScrutModel/Model/Config.lean of TestCaseConfig/DocumentConfig layering (src/config.rs) and of the order in which parser, test command and executor compose the layers; BTreeMap modelled as insertion list with last-binding-wins lookup",
    "values are abstract (natural numbers); serde_yaml parsing of the layers is not part of this property (see C17)",
    RUSTC,
]
CONFIG_RULE = (
    "exhaustive {unset,A,B}^4 over the four layers for each of the 7 scalar keys; every subset of three variable names per environment layer (inline, defaults, scrut's own) = 512 overlap patterns; "
    "seeded random full configurations through the composed pipeline; associativity/empty-layer/list accumulation on random triples of both structs; 108 end-to-end runs of the binary observing which stream is compared and which FOO value a test sees "
    "for every assignment of {cli, inline, defaults} layers. non-trivial = some key or variable set in at least two layers; distinct = distinct model op line"
)
PROPS["C16"] = {"rule": CONFIG_RULE, "trusted_base": CONFIG_TB, "assumptions": ["the Lean model is tied to the Rust code by differential execution, not by translation"], "needs_bin": True}

PROPS["C18"] = {
    "rule": "(1) the real UniqueNamer (src/bin/utils/namer.rs compiled into the harness via #[path]) on a real directory vs the Lean model: every request sequence up to length 4 over {a, a-1, b} x every subset of pre-existing {a, a-1, a-2, b}, plus seeded longer sequences; "
            "(2) oracle-only end-to-end runs of the binary: 1-3 documents (identical file names in different directories, Markdown or Cram) x outcome class {pass, fail, timeout, skip, parse error, killed} x mode {default, --work-directory, --keep-temporary-directories, missing shell}: pwd/env probes written by the tests, TMPDIR and user directory listings afterwards; three concurrent scrut processes. "
            "non-trivial = namer case with at least two requests (e2e cases are counted as evaluations only)",
    "trusted_base": [KERNEL, "the theorem statements being a faithful reading of the (partial) property", CORR,
                     "hand-written model lean/ScrutModel/Model/Namer.lean of UniqueNamer::next_name (counter loop with explicit fuel; termination of the Rust loop on an infinite set of existing names is not claimed)",
                     "tempfile::TempDir (creation, uniqueness, removal on Drop), Drop order in `scrut test`, the OS file system, bash: exercised end-to-end, not proved", RUSTC],
    "assumptions": ["directory removal is Rust Drop semantics of tempfile::TempDir; it is observed, not proved", "e2e observations are taken through files the tests write into a probe directory"],
    "needs_bin": True,
}

PROPS["C12"] = {
    "rule": "histories of state-changing bash snippets (31 snippets covering shell/exported variables with spaces, quotes, newlines, non-ASCII, arrays, associative arrays, functions incl. nested, aliases, shopt, set -o, cwd, directory stack, unset, read-only, detached) each followed by a probe of all state classes: every single snippet and every ordered pair exhaustively, plus seeded histories of length 2-8; "
            "each history is run (a) through the real StatefulExecutor+BashRunner (one bash per test case), (b) through one bash session (oracle), (c) its variable actions through the Lean model of the carrier (correspondence with (a)). non-trivial = at least two steps",
    "trusted_base": [KERNEL, "the theorem statements being a faithful reading of the (partial) property", CORR,
                     "bash 5.2 and the 60-line template src/executors/bash_runner.template: transparency of the carrier for functions, aliases, options, arrays, cwd and the directory stack is SAMPLED against a single bash session, not proved",
                     "hand-written model lean/ScrutModel/Model/ShellState.lean of the variable carrier (bindings recorded, unsets not recorded, read-only/excluded names filtered, new processes start from scrut's own environment)", RUSTC],
    "assumptions": ["the single-session oracle feeds the same snippets to one non-interactive bash with expand_aliases on; a detached step is a subshell there", "process-specific values ($$, BASHPID, SHLVL, RANDOM) are not probed"],
}


YAML_TB = [
    KERNEL,
    "the theorem statements in lean/ScrutModel/Props being a faithful reading of the property",
    CORR,
    "hand-written models lean/ScrutModel/Model/Duration.lean (humantime 2.4 format_duration/parse_duration incl. checked u64 arithmetic) and Model/ConfigRender.lean (TestCaseConfig::to_yaml_one_liner, yaml_quoted = serde_json string quoting, yaml_plain_or_quoted; parseFlow = the flow-mapping subset of YAML with libyaml's reader check, plain/double-quoted scalar scanning, 1024-byte simple-key rule, serde_yaml scalar resolution and the typed layer of TestCaseConfig incl. parse_duration_opt and TestCaseWait::parse), tied to the code by behavioural correspondence only",
    "serde_yaml 0.9.34 / unsafe-libyaml 0.2.11 / serde_json / humantime are trusted as the reference the model is compared with; inputs containing YAML line-break characters are outside the modelled subset (both sides answer `outside`)",
    "front-matter (serde_yaml block emitter for DocumentConfig) and the code-fence embedding (MarkdownTestCaseGenerator -> MarkdownParser) are checked by direct oracle on the real code only, not modelled",
    RUSTC,
]
YAML_RULE = (
    "durations: all unit boundaries (+-1, x1..3), 0, 1 ns, 2^64-1 s, seeded random magnitudes, each formatted and parsed by humantime and by the model; malformed/random duration texts from a token alphabet through both parsers; "
    "configs: every subset of the 8 keys x 3 value variants; every string of an 82-element alphabet (quotes, backslash, colon, braces, comma, #, blanks, TAB, newline, empty, true/1/~/null/yes, non-ASCII, control and non-characters, YAML line breaks) as environment value, name, wait path, and all name x value pairs; names of 1020-1027 bytes; seeded random configs; "
    "each config: model rendering vs real to_yaml_one_liner (bytes), real from_str(one-liner) == config (direct oracle), model parseFlow vs real from_str on the rendering; grammar-generated flow mappings (type-correct and wrong values, nulls, duplicates, escapes, spacing) through model and serde_yaml; "
    "front-matter to_string->from_str and generator->parser fence embedding by oracle. non-trivial = at least two keys or an environment/wait entry (configs), at least two units (durations); distinct = distinct model op line"
)
PROPS["C17"] = {"rule": YAML_RULE, "trusted_base": YAML_TB, "assumptions": ["the Lean model is tied to the Rust code by differential execution, not by translation", "Duration values are (secs < 2^64, nanos < 10^9); paths are valid UTF-8 (to_string_lossy is the identity)"]}

CAPTURE_TB = [
    KERNEL,
    "the theorem statements in lean/ScrutModel/Props being a faithful reading of the property",
    CORR,
    "hand-written models lean/ScrutModel/Model/Template.lean (str::replace and the replace chain of BashRunner::run), Crlf.lean (replace_crlf loop, TestCase::render_output), Divider.lean (compile_script layout, parse_divider_bytes, iterate_divided_output, execute_all after the shell returned, remove_dividers_from_output); tied to the code by correspondence with real processes (shell /bin/cat for the rendered template, a replay shell for the divider parser, a capture shell for the compiled script)",
    "NOT modelled, exercised only: what bash does with the script text (the model assumes each test writes its payload followed by the divider line), pipe capacity / deadlock with megabytes on both streams, Redirection::Merge write order, stack depth and memory; strip_ansi_escapes::strip and shell_escape are third-party and enter as parameters",
    "the template text and the excluded-variable list are read from the repository at run time and handed to the model with every case",
    "bash 5.2, /bin/sh, /bin/cat, subprocess crate",
    RUSTC,
]
CAPTURE_RULE = (
    "(1) str::replace vs replaceAll: exhaustive patterns over {a,b} up to length 2 x 5 replacements x all subjects up to length 6 (thorough 8), random brace/placeholder fragments; "
    "(2) BashRunner with shell /bin/cat: every expression of up to 2 (thorough 3) tokens over an alphabet holding every placeholder name, braces, newline, CRLF, a divider look-alike and non-ASCII, plus random expressions x names/state directories that themselves contain placeholders x detached; the model renders the CURRENT template; oracle: the script equals the script for a neutral expression with the expression in its place; "
    "(3) replace_crlf: every string over {CR,LF,a} up to length 8 (thorough 10) and random bytes, against the model loop, the Lean spec and an independent Rust spec; render_output over keep_crlf x strip_ansi_escaping x payload menu; "
    "(4) BashScriptExecutor with a replay shell that reads the execution's salt from the script it is handed and feeds prepared streams re-salted with it (well-formed and damaged divider lines: wrong index, signs, overflow, missing parts, foreign/near-miss salts, foreign divider starts in front of the real one, unterminated, non-UTF-8) to the private divider parser, the timeout path, and a capture shell storing the compiled script; "
    "(5) real bash through StatefulExecutor(BashRunner) and BashScriptExecutor: payload programs writing prescribed bytes (empty, unterminated, NUL, all 256 byte values, CRLF forms, ANSI, placeholder names, divider look-alikes) to stdout/stderr and exiting with prescribed codes (all of 0..255 in thorough), sequences of 1-4 tests x combined x keep_crlf x skip code, 1 MiB (thorough 4 MiB + 10^6 CRLF pairs) on both streams at once; oracle = the bytes and code the program was told to produce. "
    "non-trivial = the case contains a pattern occurrence / placeholder or brace / CR LF / a divider / a non-empty payload; distinct = distinct model op line"
)
PROPS["C13"] = {"rule": CAPTURE_RULE, "trusted_base": CAPTURE_TB, "assumptions": [
    "the Lean model is tied to the Rust code by differential execution, not by translation",
    "PARTIAL: the shell, the pipes and the OS are outside the model; the round-trip theorems assume the stream a shell produces for the compiled script is every payload followed by its divider line (compared with real bash on every run)",
    "usize is 64 bit",
]}

RENDER_TB = [
    KERNEL,
    "the theorem statements in lean/ScrutModel/Props being a faithful reading of the property",
    CORR,
    "hand-written model lean/ScrutModel/Model/Pretty.lean of the decision logic of src/renderers/pretty.rs (render_malformed_output: surrounding lines, elision, line numbers, Decorator padding, higlight_tailing_spaces/space_start_index), src/renderers/diff.rs (UnifiedDiff::render hunks, the outer sort) and the outer loops; tied to the code by correspondence on the rendered text (ANSI stripped, entries and number columns extracted)",
    "ANSI styling (console), escaping of texts (Escaper, see C11), header texts and the `strip-ansi-escapes` pass of the monochrome renderer are not modelled; they are exercised by the direct oracles on the real output only",
    "JSON/YAML well-formedness rests on serde_json / serde_yaml (the harness parses the real output back with the same crates)",
    "usize is modelled as a natural number with an explicit 2^64 bound on the `+ max_surrounding_lines` additions only; other additions are assumed not to overflow (sizes bounded by memory)",
    RUSTC,
]
RENDER_RULE = (
    "all four renderers in-process (pretty colour + monochrome, diff, json compact/pretty, yaml) under catch_unwind: (1) every string over an 11-symbol alphabet (ASCII, blank, TAB, U+3000, NBSP, U+2003, U+2028, 2- and 4-byte characters, U+0085, backslash) up to length 4 (thorough 5) as unexpected output line and as expectation, plus seeded random texts, against the model of higlight_tailing_spaces; "
    "(2) every diff shape over {matched, unmatched, unexpected} up to length 7 (thorough 9) with max_surrounding_lines 0..3, relative/absolute numbers; (3) seeded diffs produced by the REAL DiffTool on generated expectation/output pairs (all rule kinds, quantifiers, wide/multi-byte characters, trailing Unicode white space, control bytes, invalid UTF-8, 10^5-character lines, missing final newline); (4) hand-built Diff::new(..) both well-formed and arbitrary (indices outside the test case, empty line lists, max_surrounding_lines up to usize::MAX): model and code must agree on crash/no crash; "
    "(5) every sequence of result kinds up to length 3 (thorough 4) and seeded outcome lists with all/no/mixed locations: sections, summary counts, sort order of the diff renderer, json/yaml kinds. non-trivial = a diff with at least one matched and one differing entry / a text with trailing white space after other text / at least two outcomes; distinct = distinct model op line"
)
PROPS["C19"] = {"rule": RENDER_RULE, "trusted_base": RENDER_TB, "assumptions": [
    "the Lean model is tied to the Rust code by differential execution, not by translation",
    "the harness is built with debug assertions (overflow checks on): an arithmetic overflow is a panic, as in the model",
    "a DiffLine's output line contains no embedded newline (the matcher splits at newlines) and an expectation's text is one line",
]}

MD_TB = [
    KERNEL,
    "the theorem statements in lean/ScrutModel/Props/C06.lean (and the relation Covers in Model/MarkdownSpec.lean) being a faithful reading of the property",
    CORR,
    "hand-written models lean/ScrutModel/Model/Markdown.lean (str::lines, extract_code_block_start with byte-offset slicing, MarkdownIterator, extract_title, MarkdownParser::parse) and Model/LineParser.lean (LineParser), tied to src/parsers/markdown.rs and line_parser.rs by behavioural correspondence only",
    "parameters of the model, supplied per case by the harness from the real code: the Unicode class \\p{L} (regex crate), ExpectationMaker::parse accepting a line, serde_yaml accepting a front-matter / inline configuration text and the layered configuration it yields (opaque values; layering is C16, YAML is C17)",
    "Unicode White_Space (char::is_whitespace = regex \\s) is written out in the model",
    "src/bin/utils/file_parser.rs (choosing the parser by file extension, reading the file) is not modelled",
    RUSTC,
]
MD_RULE = (
    "documents through the real MarkdownParser::parse vs the model: (1) 30k (thorough 400k) seeded AST-directed documents of <= 9 items (blank, prose incl. backtick-led lines, paragraph, heading, front-matter, foreign blocks with 3-6 backticks and any info string, scrut blocks with config/comments/multi-line commands/expectations/exit code, blocks without command; CRLF and missing final newline variants) with the expected tests known by construction; "
    "(2) every line-prefix (up to 12 lines) of such documents, expected tests = complete items + the cut construct read to the end; (3) seeded malformed documents (a fence line dropped, a line inserted, cut at any character); "
    "(4) exhaustive: all documents of <= 5 (thorough 6) lines over a 15-line alphabet; (5) exhaustive: all fence lines ``` / `` + <= 6 (thorough 7) characters over {`,scrut,{,},space,e-acute,CR} in front of a fixed body; (6) fixed witnesses of stricter readings. "
    "Compared per test: title, shell expression, expectation texts, exit code, line number, layered configuration; document configuration; error kind and line. non-trivial = at least two lines starting with ```; distinct = distinct model op line"
)
PROPS["C06"] = {"rule": MD_RULE, "trusted_base": MD_TB, "assumptions": ["the Lean model is tied to the Rust code by differential execution, not by translation", "expectation parsing, YAML and the Unicode letter class enter the model as per-case verdicts computed by the real code"]}

CRAM_TB = [
    KERNEL,
    "the theorem statements in lean/ScrutModel/Props being a faithful reading of the property",
    CORR,
    "hand-written models lean/ScrutModel/Model/Cram.lean of CramParser::parse (src/parsers/cram.rs:53-95, incl. str::lines()) and lean/ScrutModel/Model/LineParser.lean of LineParser (src/parsers/line_parser.rs), tied to the code by behavioural correspondence only",
    "expectation parsing (ExpectationMaker::parse succeeds or not) is a parameter of the model: the theorems hold for every expectation grammar; the harness instantiates it per document with the real maker evaluated on the indented line texts; Expectation::original_string() returning the line text is checked by correspondence",
    "TestCaseConfig::default_cram / DocumentConfig::default_cram are transcribed as constants and compared field by field on every parsed test",
    RUSTC,
]
CRAM_RULE = (
    "every document of at most 4 (thorough 5) lines over a 23-token line alphabet whose neighbours differ by single spaces (indent 0-3, `$`/`$ `/`$  x`, `> y`/`>y`, trailing blanks, `[1]`/`[1] `/`[2147483648]`, `# c` indented or not, an unparsable `( (re)`, two titles) "
    "and of at most 5 (thorough 6) lines over its 10-token core, through the real CramParser and the model; seeded documents rendered from an AST (titles, blanks, comments also inside tests, continuations, whitespace-only expectations, exit codes with leading zeros / i32::MAX; indentation 0-4) with the tests known by construction; "
    "seeded raw line soups with CRLF, bare CR and missing final newline. Compared per test: title, shell expression, expectation originals, exit code, line number, configuration; document configuration; error kind and line. "
    "Direct oracle: an independent block-structured reading of every document (+ the AST's own tests). non-trivial = at least one `$ ` line and at least two lines; distinct = distinct model op line"
)
PROPS["C07"] = {"rule": CRAM_RULE, "trusted_base": CRAM_TB, "assumptions": ["the Lean model is tied to the Rust code by differential execution, not by translation", "CramParser is constructed with a small indentation (the default 2; 0-4 are exercised)"]}

ESC_TB = [
    KERNEL,
    "the theorem statements in lean/ScrutModel/Props being a faithful reading of the property",
    CORR,
    "hand-written models lean/ScrutModel/Model/Escaping.lean (src/escaping.rs: has_unprintable_*, byte_to_ascii, escaped_printable_*, guard_tailing_no_eol, escaped_expectation_*), EscapedFilter.lean (src/rules/escaped_filter.rs: unescape_tabs, resolve_escape_sequences_to_bytes incl. from_str_radix's leading '+'), RulesStr.lean (EqualRule, EqualNoEolRule, EscapedRule incl. the ` (no-eol)` stripping, trim_newlines/assure_newline), Utf8.lean (String::from_utf8 as a total decoder), tied to the code by behavioural correspondence only",
    "char::is_other() (crate unicode_categories) is a parameter of the model; unicode-mode theorems assume AsciiContract (on ASCII: exactly 0x00..0x1f and 0x7f); the harness passes the real classification of every input character with each case and evaluates the printable oracle with the real is_other",
    "String::from_utf8_lossy enters only through `encoded == escaped`: modelled as `decoded text == escaped` for valid UTF-8 and `false` for invalid UTF-8 (the lossy text then contains U+FFFD, the byte-wise rendering is pure ASCII); checked by the correspondence on every case",
    "reading back goes through the public ExpectationMaker::parse of `<text> (escaped)` / `<text> (equal)`; that parse hands the text before the final ` (kind)` to the rule constructor is the subject of C08, exercised here on every case",
    RUSTC,
]
ESC_RULE = (
    "cases = (mode, line bytes) through the real Escaper::{has_unprintable, escaped_printable, escaped_expectation}, the written text parsed back through ExpectationMaker::parse and matched: "
    "exhaustive over all strings of 0-2 bytes x both modes, all 3-symbol strings over a 24-symbol alphabet around the backslash x both modes, Unicode scalars alone / after a backslash / next to a control character in unicode mode "
    "(quick: all below U+3000, the surrogate and plane boundaries and every 101st; thorough: every scalar), seeded random bytes and random valid UTF-8 with 0-2 trailing line feeds, every prefix of 0-2 symbols x 10 tails around ` (no-eol)` x both modes; "
    "the decoder alone on every expression of up to 4 symbols over 16 (incl. malformed ones: ok/err class must agree) and random longer ones; the model's UTF-8 decoder against String::from_utf8 on all strings of 0-2 bytes, "
    "3- and 4-byte strings over boundary bytes (thorough: all 3-byte strings) and damaged random text. Direct oracle on the real code: printable by the real is_other, matches(line+LF), escaped also matches(line), no match for ~50 single-byte edits of the content. "
    "non-trivial = the line contains a byte outside 0x20..0x7e or a backslash (esc), the expression contains a backslash (unesc), a byte >= 0x80 (utf8); distinct = distinct model op line"
)
PROPS["C11"] = {"rule": ESC_RULE, "trusted_base": ESC_TB, "assumptions": [
    "the Lean model is tied to the Rust code by differential execution, not by translation",
    "lines contain no interior line feed (they are pieces of split_at_newline after trim_newlines)",
    "AsciiContract isOther for unicode mode (checked on the real crate for all 128 ASCII characters by the exhaustive 1-byte stream)",
]}

RULES_TB = [
    KERNEL,
    "the theorem statements in lean/ScrutModel/Props/C04.lean being a faithful reading of the property (GlobRel / TokRel / Matches are the documented meanings)",
    CORR,
    "hand-written models lean/ScrutModel/Model/Glob.lean (GlobRule = wildmatch incl. `**` simplification and the crate's loop transliterated; CramGlobRule = token reading of glob_to_regex_string) and Model/RegexWrap.lean (the `^(?:e)$` wrap as AST construction over a regex fragment with position-based semantics), tied to the code by correspondence",
    "the wildmatch crate and the regex crate (syntax, engine, Unicode handling) are dependencies: their behaviour is sampled exhaustively on the small scope, not proved; the transliterated wildmatch loop (wildLoop, with explicit fuel) is proved equal to the denotation (C04_wildmatch_is_glob) — that the transliteration is the crate's loop is checked by correspondence",
    "the three Cram-compat clean-up passes of RegexRule::make are modelled on the expression text (Model/RegexCleanup.lean: look-ahead as a flag, Regex::replace_all of the two fixed patterns as a left-to-right scan with a skip counter) and compared with the real cleaned expression (`unmake()`, or the pattern quoted in the regex crate's syntax error when the result does not compile); the link between expression text and the AST `RE` of the whole-line theorems (the regex crate's parser) is not modelled; the direct oracle compares the rule with the regex crate's own `\\A(?:e)\\z` for the cleaned expression and for the expression as written",
    "lines are valid UTF-8 (List Char); decoding (lossy for glob) is outside the theorems",
    RUSTC,
]
RULES_RULE = (
    "glob: every pattern over {a,b,*,?} up to length 5 x every line over the same alphabet up to length 6 through ExpectationMaker::parse(\"<pat> (glob)\") for the default registry and for the Cram-compat registry (CramGlobRule registered as in make_expectation_maker(true)); "
    "the same with 1 and 2 trailing newlines (length 4x4), with one multi-byte character (é), Cram escapes over {a,*,?,\\} 5x5; seeded random pairs over a 16-character pool incl. 2-4 byte characters and a combining mark. "
    "regex: every expression of the fragment (atoms a b . ^ $, (?:..), *, concatenation, <=3 alternatives per level) with <= 5 nodes x every line over {a,b} up to length 4 (and 1-2 trailing newlines for <= 4 nodes) against searchB (wrap e); "
    "clean-up passes: every expression over {a \\ { } [ ] 1 , - < > |} up to length 5 (thorough: 6, 3.26M) through RegexRule::make, up to length 3 and 20k random token strings through ExpectationMaker::parse, 25k `<<<<..>>>>` shapes, cleaned text against regexClean; direct oracle on these and on 40k seeded arbitrary expression strings (30-token pool incl. classes, quantifiers, escapes): RegexRule::matches == regex::bytes `\\A(?:cleaned)\\z`. "
    "One case = one expression against its whole line enumeration. non-trivial = the expression has a wildcard / a top-level alternation and both matching and non-matching lines; distinct = distinct model op line"
)
PROPS["C04"] = {"rule": RULES_RULE, "trusted_base": RULES_TB, "assumptions": [
    "the Lean model is tied to the Rust code by differential execution, not by translation",
    "output lines are valid UTF-8 and contain no newline except possibly the last byte (split_at_newline); behaviour on undecodable lines is recorded in the histogram only",
]}

GRAMMAR_TB = [
    KERNEL,
    "the theorem statements in lean/ScrutModel/Props being a faithful reading of the property",
    CORR,
    "hand-written model lean/ScrutModel/Model/Grammar.lean of RuleRegistry::to_expectation_regex (the regex written out as the string function it denotes under leftmost-first semantics), ExpectationMaker::extract/parse (capture-count logic incl. the index panic), RuleRegistry::make dispatch and Rule::to_expression_string; tied to the code by correspondence only",
    "parameters of the model (theorems hold for all values): the regex crate's \\s class (only `\\s` matches the blank is assumed; the model's Unicode White_Space table is compared with the crate on U+0000-U+30FF), make+unmake of the glob/regex rules and the escape-sequence resolution of the escaped rule (apply_escaped_filter_bytes; its ` (no-eol)` strip is modelled) (subject of C04), the escaper (subject of C11), char::is_whitespace (std; the theorems assume only that every `\\s` character is white space for std, both are compared per code point); rule matching is a function of (kind, unmake expression) in the model, sampled by the match-equivalence oracle",
    "the regex crate implementing leftmost-first semantics",
    RUSTC,
]
GRAMMAR_RULE = (
    "lines through the real ExpectationMaker::parse -> unmake(), rendered by the real to_expression_string under both escapers and parsed again, compared with the model line by line: "
    "(1) every string of up to 4 (thorough 5) tokens over {foo, blank, (, ), all 9 kind names, ?, *, +, TAB, NBSP, e-acute, x}; (2) every skeleton of up to 6 (thorough 7) tokens over the classes {foo, blank, (, ), KIND, QUANT, TAB|NBSP} with kind names and quantifiers instantiated by rotation, and every string of up to 5 (thorough 7) tokens over {foo, blank, (, ), esc, +, LF}; "
    "(3) the cross product prefix x white space x kind-or-near-miss x quantifier-or-near-miss x tail (nested modifiers, all Unicode white-space flavours); (4) seeded random lines with malformed escapes/regexes, control and non-ASCII characters; "
    "(5) the \\s class per code point. Direct oracle independent of the model: a backwards scanner for the documented grammar + rule construction on its own; round trip: quantifier equality and match-equivalence on a line set derived from both expressions. "
    "non-trivial = the line contains `(`; distinct = distinct model op line"
)
PROPS["C08"] = {"rule": GRAMMAR_RULE, "trusted_base": GRAMMAR_TB, "assumptions": [
    "the Lean model is tied to the Rust code by differential execution, not by translation",
    "a line is a text without line feed (what the code does otherwise -- it panics -- is recorded and covered by the correspondence, not part of the property)",
]}

UPDATE_TB = [
    KERNEL,
    "the theorem statements in lean/ScrutModel/Props/C10.lean (vocabulary: lean/ScrutModel/Model/UpdateSpec.lean, relation Rewritten) being a faithful reading of the property",
    CORR,
    "hand-written model lean/ScrutModel/Model/Update.lean of MarkdownUpdateGenerator::generate_update (src/generators/markdown.rs:41-115, max_backtick_size 175-188) on top of the tokenizer model lean/ScrutModel/Model/Markdown.lean (C06), tied to the code by behavioural correspondence only",
    "the text Outcome::generate_testcase returns per outcome is a parameter of the model (any text, or failure): the theorems hold for every generator; the harness obtains it per outcome from the real code through the public MarkdownTestCaseGenerator, which wraps exactly that text into a fence (C09 is about its content)",
    "src/bin/commands/update.rs (running the tests, building outcomes, keeping detached tests, writing the file) is not modelled",
    RUSTC,
]
UPDATE_RULE = (
    "(1) every document of at most 4 (thorough 5) lines over a 12-line alphabet that hits every branch of the tokenizer and of the block writer (`---`, scrut fences of 3 and 4 backticks with and without configuration, blank and spaced configuration, bare fences, foreign fence, comment, command, output, blank line), each with two of six outcome lists (pass, changed output, changed exit code, kept quantifiers, output with backtick lines and without final newline, output that looks like Markdown, timeout = generator failure, no outcomes, too few / too many outcomes); "
    "(2) seeded random documents of up to 14 lines over that alphabet plus 14 malformed neighbours (`--- `, ` ---`, five backticks, text after the configuration, non-ASCII before a fence, NBSP in the info string, `~~~`, `> y`, `[1]`, TAB, two backticks), with LF, CRLF, mixed, `\\r\\r\\n`, missing final terminator or a final bare CR, and random outcome lists; "
    "(3) generated well-formed documents (prose, front-matter, foreign blocks, unterminated foreign block, scrut blocks with glob/regex/optional expectations, configuration, comments, 3/4 backticks, CRLF) whose outcomes come from the real parser and the real validate on perturbed outputs; (4) the fixed witness of the open finding. "
    "Per case: the real generate_update vs the model on the same document and the texts generated per outcome (whole updated document, byte for byte, or the canonical error); direct oracles on the real code: reference reading of the document written from the documentation (lines outside scrut blocks equal before/after, block count, language, configuration, comment lines, every block closed), update twice with the same outcomes gives the same bytes, no outcomes = untouched, errors only for missing/unrenderable outcomes; for (3) also re-parse: same commands, same configuration, passing tests keep their expectations, second update with re-validated outcomes. "
    "non-trivial = at least one scrut block and at least one outcome; distinct = distinct model op line"
)
PROPS["C10"] = {"rule": UPDATE_RULE, "trusted_base": UPDATE_TB, "assumptions": [
    "the Lean model is tied to the Rust code by differential execution, not by translation",
    "C10_idempotent / C10_same_commands hold under decidable guards (no line ends in CR, front-matter closed, languages without backtick/brace/white space, generated texts end in LF and do not start with a comment line); that generate_testcase produces such texts and that the real parser reads the same shell expressions from the re-tokenized code lines are decided by the direct oracles on the generated cases (and by C09), not proved",
    "command-line glue (src/bin/commands/update.rs: executor, zip of test cases and outputs, detached handling, without_environment, output path for --replace / --output-suffix / --convert) is not modelled: harness/src/cli.rs runs the built binary on documents whose commands have known output and compares the written file with the model's `upd` answer and with generate_update fed the known outputs",
], "needs_bin": True}

GENERATE_TB = [
    KERNEL,
    "the theorem statements in lean/ScrutModel/Props being a faithful reading of the property",
    CORR,
    "hand-written model lean/ScrutModel/Model/Generate.lean of generate_expectation_line, looks_like_modifier_or_exit_code, generate_testcase_expression, generate_testcase (all three rendered branches, for a test without expectations = create and for a test with any expectations and any diff = update: generateTestcaseUpd; the former proved to be the special case of the latter), MarkdownTestCaseGenerator (max_backtick_size) and CramTestCaseGenerator (cram_indented) for one outcome without title; tied to the code by comparing the whole generated document byte for byte on every case",
    "the component models the theorems compose (Newline, Escaping, EscapedFilter, RulesStr, Grammar, LineParser, Diff, Exec), each tied to the code by the correspondence of its own property (C01-C08, C11)",
    "parameters: char::is_other() (unicode mode: assumed to be exactly the control characters on ASCII, real value passed per case), the regex crate's \\s and char::is_whitespace taken as the Unicode White_Space table of Model/Grammar.lean (compared per code point under C08), glob/regex rule constructors (arbitrary: no generated line uses them)",
    "String::from_utf8_lossy only on valid UTF-8 (its use on a command or on a printable line); the Markdown/Cram document parsers reading the generated wrapper back as one test with the same command and these lines: not a Lean theorem, checked on every case by the oracle real generator -> real parser -> real validate",
    RUSTC,
]
GENERATE_RULE = (
    "outcomes built as src/bin/commands/create.rs builds them, through the real Markdown/Cram generators, compared byte for byte with the model's document; the same text through the real parser and the real TestCase::validate against the output it was generated from (direct oracle = the property itself): "
    "(1) every output of up to 2 (thorough 3) lines over an 18-line collision alphabet (foo, `foo (glob)`, `foo (?)`, `foo ()`, `[1]`, `$ x`, `> x`, a fence, empty, blanks, control character, backslash, non-ASCII, invalid UTF-8, `# c`, ` (no-eol)` endings) x final line feed x format x escaper x exit code {0,1,255}; "
    "(2) every line prefix x middle x suffix over 7x8x10 syntax fragments (command leads, brackets, fences x text, control, backslash, invalid UTF-8 x modifiers, ` (no-eol) (escaped)`, white-space flavours), alone or as second line, x final line feed x format x escaper; "
    "(3) seeded random byte strings with multi-line, non-ASCII and stderr-validated commands; (4) commands (empty -> index panic as a value, blank continuation lines, non-ASCII, `$ `/`> ` inside); "
    "(5) update: random Markdown documents with perturbed outputs and the greedy witness (oracle only: the rewritten block passes on the output it was updated from); "
    "(6) update, generate_testcase for a test WITH expectations: real outcomes from real TestCase::validate -- every list of up to 2 (thorough 3) expectations over 6 texts (plain, glob, `?`, `+`, `*` quantified) x every output of up to 3 (thorough 4) lines over 5 lines (matched by one / several / none, `[1]`, `$ x<ctl>`) x final line feed, exit code expected or not (InvalidExitCode with actual 0 and non-zero), plus seeded random lists over 14 texts x random outputs x commands x stderr: the REAL diff (matched / unmatched / unexpected entries with their line indices) is sent to the model op `genupd` and the text of generate_testcase is compared byte for byte; the written document goes through the real parser and the real validate (failures with a retained quantified expectation are the open finding's class). "
    "non-trivial = output of at least 2 bytes / document with a scrut block; distinct = distinct model op line"
)
PROPS["C09"] = {"rule": GENERATE_RULE, "trusted_base": GENERATE_TB, "assumptions": [
    "the Lean model is tied to the Rust code by differential execution, not by translation",
    "the output is what TestCase::validate sees (after render_output); exit codes are process exit codes 0..255 for the read-back theorem",
    "create: no title, configuration = the format's default or output_stream: stderr",
    "update (C09_update_unquantified_passes): the test's expectations enter as their quantifiers and an arbitrary match matrix; that the original text of a retained expectation parses back to the same expectation is not modelled (decided by the update oracles: real update -> real parser -> real validate); the guard `no expectation is quantified` excludes exactly the open finding",
    "command-line glue (src/bin/commands/create.rs, update.rs) is not modelled: it is tied end to end by harness/src/cli.rs, which runs the built binary on commands with known output (cat <payload>; (exit N)) and compares the written document (minus the title the command line adds) with the model's `gen` answer, with the library generator fed the known output, and with `scrut test` on the written file",
], "needs_bin": True}

MANIFEST_TEXT = {
    "C09": {
        "text": "CREATE. Machine-checked (Lean 4, every output byte string, both escapers, no guard): for every line of split_at_newline(output), generate_expectation_line does not panic and writes a text that contains no line feed, starts with neither `$ ` nor `> `, is no `[digits]` line -- so add_testcase_body appends it to the expectations of the open test in either parser mode (C09_line_is_expectation) -- and that the expectation grammar parses to an UNQUANTIFIED expectation of kind equal, no-eol or escaped whose rule (EqualRule / EqualNoEolRule / EscapedRule::make + matches) matches exactly that line (C09_line_roundtrip; covers `[1]`, `$ x`, `> x`, `foo (glob)`, `foo ()`, ` (no-eol)` endings incl. the \\x20 rewrite and the \\x24/\\x3e first-character escape, control characters, backslashes, invalid UTF-8, missing final line feed). Composition: all three reachable branches of generate_testcase write command + one such line per output line + `[code]` iff code != 0 (C09_create_shape, C09_create_lines_written, C09_create_outcome); the matcher run with the parsed expectations against the same output reports no difference (C09_create_passes, via C03_own_lines); `[c]` reads back as c for 0..255 and validate then says ok (C09_exit_code_roundtrip, C09_create_verdict); the Markdown fence is longer than any backtick run at a line start (C09_markdown_fence). Key lemma: everything written in front of ` (escaped)` is a sequence of decoder tokens in which a blank is only ever the blank piece and a non-backslash first character is its own piece, so `\\x20` and `\\xHH` rewrites keep the decoded bytes (Lemmas/GeneratePieces.lean). THROUGH THE DOCUMENT PARSER (Markdown): for every command given by its lines, every output, exit code 0..255, both escapers and both inline configurations, the document create prints is read back by the Markdown parser model (C06) as exactly one test with the same command lines, the generated texts as expectations, the exit code and the configuration (C09_create_markdown_end_to_end: the fence of max_backtick_size+1 backticks is recognised, no generated line closes the block, ends in CR, continues the command or is a second exit code). The same for `create --format cram` through the Cram parser model (C07): C09_create_cram_end_to_end (cram_indented puts every line behind two blanks = the rendering of one test of C07's grammar). Every generated character is printable -- ascii mode 0x20..0x7e, unicode mode no is_other character -- hence never CR or LF, so str::lines() returns the generated lines unchanged (C09_line_printable). What remains outside Lean on the create path is only what lies between the models and the real code: the byte-for-byte correspondence of the whole document, the parser correspondences of C06/C07, and the end-to-end oracle (real generator -> real parser -> real validate; since session 3 also through the real binary: scrut create, then scrut test) on every case. UPDATE: generate_testcase is modelled for a test with ANY expectations and ANY diff (generateTestcaseUpd: Ok -> original texts; MalformedOutput -> matched expectations written back as their original text, unexpected lines through generate_expectation_line, unmatched expectations dropped; InvalidExitCode -> every line regenerated, `[actual]` iff actual != 0), create's function is proved to be its special case `no expectations` (C09_create_is_update_special_case), and the text is tied to the code byte for byte on real outcomes with the real diff (op genupd). The full statement is false (C09_update_fails_on_witness, C09_update_witness_slots, open finding); its true part is machine-checked: for a test whose expectations -- of any kinds, any match matrix -- carry NO quantifier, the list update writes for the real matcher's diff has exactly one entry per output line, in line order, entry k being a retained expectation that matches line k or the expectation generated for line k (C09_update_unquantified_entries, from C02's conservation theorem; retained ones keep their order: C09_update_keeps_order), no entry carries a quantifier, and the matcher run on the updated list against the same lines reports no difference (C09_update_unquantified_passes, via C09_line_roundtrip and C03_own_lines); the text written is exactly the texts of these entries between command and exit code line (C09_update_text); a changed exit code discards all expectations and writes what create writes, for any expectations (C09_update_invalid_exit_code). Not in Lean for update: the hop through the document parser for retained original texts (oracle).",
        "design_ref": "DESIGN.md §6 C09",
        "note": "Open finding C09:update-retained-quantified-expectations (inherent to the greedy matcher; witness `a* (glob+)`, `zzz`, `*2 (glob)` on a1 a2 b2). Defects repaired by fix: e62618f (Cram trim_end), bc2a143 (syntax collisions, ` (escaped) (no-eol)` order, stderr stream), 9b34612 (found by this model: `$ foo (no-eol)` was written `\\x24 foo (no-eol) (escaped)` and failed on its own output; regression class C09:first-char-escape-drops-no-eol-guard). Unicode-mode theorems assume is_other on ASCII = control characters. An empty shell expression panics in generate_testcase_expression (index 0 of no lines): modelled as a value, not reachable from a non-empty command line. A command ending in a line feed reads back without it (outside the property's quantifier: outputs and exit codes).",
        "technique": "Lean 4 theorems composing the machine-checked component models (escaper, decoder, grammar, line parser, matcher, verdict) over an executable model of the generators + byte-for-byte differential correspondence of the generated document + end-to-end generate/parse/validate oracle",
    },
    "C10": {
        "text": "Machine-checked (Lean 4) for all documents, malformed included, all language lists and all generated texts: without outcomes the document is returned byte for byte (C10_no_outcomes_untouched); update never panics and fails only for a missing or unrenderable outcome (C10_fails_only_for_outcomes); the updated text arises from the lines of the document by the rules of the relation Rewritten: every line outside scrut blocks (prose, front-matter, foreign blocks, unterminated constructs, everything after the last test) is written back as it is, in order, LF-terminated, nothing dropped or truncated, every scrut block replaced by exactly one closed block (C10_outside_preserved; strict form under the guard 'every front-matter is closed': C10_outside_preserved_partial); a rewritten block keeps language, inline configuration (white space after `{` dropped, white space only = none) and the comment lines, a block without code keeps all lines and uses no outcome (C10_blocks_kept); a block rewritten from its own code lines is reproduced line for line (C10_passing_verbatim); the updated document is tokenized into the same tokens in the same order - same texts outside scrut blocks, per block the same language, configuration and comment lines, code lines = the lines of the generated text (C10_same_commands, relation Reread) - and a second update with the same generated texts writes the same document: update (update doc gens) gens = update doc gens (C10_idempotent); both under decidable guards: no line ends in a carriage return, every front-matter is closed, test languages hold no backtick / `{` / white space, generated texts end in LF and do not start with a comment line (necessary: C10_idempotent_needs_GenOK); that no line of a generated text starts with the fence chosen by max_backtick_size+1 is proved, not assumed (C10_fence_safe); read-back steps C10_lines_read_back, C10_fence_line_read_back, token-level core C10_idempotent_partial. PARTIAL: the guards exclude exactly the open findings, proved on closed witnesses and reported by the oracle: an unterminated front-matter gains `---` (C10_front_matter_unterminated_fails_on_witness), `\\r\\r\\n` loses one CR per update (C10_not_idempotent_stray_cr_witness); idempotence of the whole `scrut update` run additionally needs the second run to produce the same outcomes, which fails for retained quantified expectations (open finding, C09); that the real parser reads the same shell expressions from the re-tokenized code lines is decided by the re-parse oracle only. Tie to code: exhaustive documents up to 4 lines over a 12-line branch alphabet x outcome lists, random malformed documents with all line-ending styles, generated well-formed documents with real parse/validate; the model reproduces the whole updated document byte for byte.",
        "design_ref": "DESIGN.md §6 C10",
        "note": "Trusted: Lean kernel + 3 standard axioms, the correspondence harness, statement reading. generate_testcase is a parameter (C09). Open finding C10:not-idempotent-retained-quantified-expectations (same root cause as C09:update-retained-quantified-expectations). Line terminators are normalised to LF and a final terminator is added (stated normalisation). Repaired by fix: 41f3a85, 7028fbe, 9832a4c and cdbfbca (empty front-matter gained a blank line; `{  }` became `{}` and then disappeared - found by this check, regression examples C10_front_matter_empty_kept, C10_blank_config_idempotent).",
        "technique": "Lean 4 theorems on an executable model of generate_update over the C06 tokenizer model + differential correspondence (exhaustive small scope, random malformed, generated well-formed) + direct oracles",
    },
    "C08": {
        "text": "Machine-checked (Lean 4, all lines without line feed, any \\s class, any rule constructors, any escaper): parse never panics and never reports an unknown kind; it fails only with the error of the escaped/glob/regex constructor on the expression in front of a final modifier (C08_total); the recognised modifier is exactly the documented final ` (<kind><quantifier>)` with everything before the white-space character verbatim (C08_grammar: Modifier <-> modifierOf, C08_extract, C08_modifier_parse incl. ?/*/+ flags), the decomposition is unique (C08_modifier_unique, C08_suffix_unique) and every other line incl. `foo ()` is equal for the whole line (C08_otherwise_equal). Round trip: for every expectation of every kind parse(to_expression_string e) gives e back with the same quantifier (equal with unprintable content as escaped) exactly when the rule constructor reproduces the expression from the rendered text (C08_roundtrip, C08_roundtrip_iff, C08_parse_render, C08_roundtrip_matches); no guard on the text's shape is left because ends_like_modifier over-approximates the grammar (C08_ends_like_modifier_sound; regression example C08_roundtrip_equal_modifier_shaped). The ` (no-eol)` strip of EscapedRule::make is part of the model; every text written under the escaped kind goes through guard_tailing_no_eol, never ends in ` (no-eol)` and is not stripped (C08_guard_never_stripped), so for it the contract is the pure unescape-inverts-escape contract (C08_roundtrip_escaped_iff; regression example C08_roundtrip_no_eol_guarded). PARTIAL in that the constructor/escaper contract is a hypothesis (subject of C04/C11) and is false in one known situation, an open finding: regex/no-eol expressions with unprintable characters, displayed through the escaper (decidable guard has_unprintable = false: C08_roundtrip_noEol_guarded, C08_roundtrip_noEol_iff, C08_roundtrip_fails_on_escaped_pattern_witness). Tie to code: exhaustive token-alphabet lines, structured nested suffixes, random lines through the real parse/render/parse under both escapers; backwards-scanner oracle.",
        "design_ref": "DESIGN.md §6 C08",
        "note": "Open finding C08:escaped-pattern-roundtrip (regex / no-eol expressions with unprintable characters -- under --escaper ascii any non-ASCII character -- are written through the escaper for display and read back literally: `a<TAB> (no-eol)` -> `a\\t (no-eol)`; no escaped syntax exists for these kinds). Round-trip defects repaired by fix: 2c946ec (equal text ending like a modifier; glob written through the escaper; escaped with a literal backslash) and c1bf05c (bytes ending in ` (no-eol)` written as an escaped expectation lost the suffix; regression class C08:escaped-no-eol-strip-roundtrip). Lines containing a line feed panic in parse (out of scope). `\\s` is Unicode white space (doc says a space): NBSP, TAB, U+3000 ... before the parenthesis also make a modifier. Defect repaired earlier by fix: d06722c (`foo ()`).",
        "technique": "Lean 4 theorems on a string-function model of the grammar regex + exhaustive differential correspondence + independent backwards-scanner oracle",
    },
    "C04": {
        "text": "PATTERN KINDS. Machine-checked: wildmatch's matching (with `**` simplification) holds iff the pattern relates to the text by the documented relation GlobRel (`?` exactly one character, `*` any run, rest literal, whole text) for all patterns and texts (C04_glob_iff), hence a line matches a glob expectation iff the whole line without its final newline is an instance (C04_glob_line_partial, under IsLine); the Cram-compat glob likewise against its token reading with `\\*` `\\?` `\\\\` literal (C04_cram_glob_iff, C04_cram_glob_line_partial); an unanchored search for `^(?:e)$` succeeds iff e matches from position 0 to the end, for every e of the regex fragment incl. nested alternations and anchors (C04_regex_whole_line, C04_regex_line_partial), the executable search decides the relational semantics (C04_regex_search_decides); the pre-fix wrap `^e$` accepts a prefix or suffix for alternations (C04_old_wrap_prefix_or_suffix, C04_old_wrap_fails_on_witness: `a|b` vs `axxx`). The wildmatch crate's own iterative loop (transliterated, explicit fuel) never exhausts its fuel and equals the recursive matcher (C04_wildmatch_is_glob, C04_wildmatch_iff); Cram glob = plain glob for backslash-free patterns (C04_cram_glob_is_glob); the three regex clean-up passes are the identity on every expression without `{ } [ ]`, without a backslash in front of an unrecognised character and without `<<<<` (C04_cleanup_identity), so for those the compiled pattern wraps exactly the written text. Tie to code: exhaustive small-scope differential runs of the real GlobRule / CramGlobRule / RegexRule through ExpectationMaker::parse, reference matchers written from the documentation, and for regex the regex crate's own `\\A(?:e)\\z` on generated and arbitrary expressions.",
        "design_ref": "DESIGN.md §6 C04",
        "note": "Partial: (1) IsLine guard — the rules strip all trailing newlines, so `a (glob)` matches `a\\n\\n` (C04_glob_unguarded_fails_on_witness); such input never comes from split_at_newline. (2) lines that are not valid UTF-8 are outside the theorems (glob sees U+FFFD, regex-based rules cannot step over the byte). (3) outside the `plain` guard of C04_cleanup_identity the clean-up passes may change the meaning of a valid regex: the direct oracle compares the rule with the expression as written whenever that is a valid regex: deliberate re-readings (`\\<` as literal `<`, `[` inside a class as a literal) are counted in the histogram, any other change is an oracle failure (open findings, witnessed on the model: escape_misused_character_class turns `[a]]` into the class `[a\\]]` (C04_cleanup_bracket_witness) and makes `[a-]]` unparsable (C04_cleanup_range_witness); pass 2.3 of escape_misused_repetition_quantifier rewrites a user-written `<<<<1>>>>` into `{1}` (C04_cleanup_angle_witness)). (4) the regex crate's parser (text -> AST) is not modelled. The wildmatch and regex crates are trusted dependencies sampled by correspondence.",
        "technique": "Lean 4 theorems (decision procedure = inductive specification) on executable models of wildmatch / glob-to-regex / regex wrap + exhaustive differential correspondence + regex-crate whole-line oracle",
    },
    "C11": {
        "text": "Machine-checked (Lean 4, all byte strings without line feed, both modes, no guard): the text written for a line is printable - ascii mode: every character in 0x20..0x7e (C11_ascii_printable); unicode mode: no is_other character, under the contract that is_other on ASCII is exactly the control characters (C11_unicode_printable) - and lossless: read back as the kind it is written as (unmarked -> EqualRule, ` (escaped)` -> EscapedRule::make + matches) it matches the line with its line feed (escaped: also without) and every line it matches has exactly that content (C11_lossless, full strength). Key lemmas: every piece the escaper writes is a token that the two decoder passes (unescape_tabs, resolve_escape_sequences_to_bytes) read as the bytes it was written for, tokens compose (Tok.*); the rendering is a sequence of pieces in which a blank is its own piece, so guard_tailing_no_eol's rewrite of a tailing ` (no-eol)` to `\\x20(no-eol)` keeps the bytes (Rep.replace_space, Rep.guard) and the guarded text never ends in ` (no-eol)`, so EscapedRule::make strips nothing (C11_no_eol_guarded); the UTF-8 decoder is sound and complete. The witness of the former finding is a positive regression theorem (C11_regression_no_eol); C11_unguarded_text_would_fail records why the guard is needed. Tie to code: exhaustive 0-2 byte strings and 3-symbol strings around the backslash in both modes, every 0-2 symbol prefix x 10 tails around ` (no-eol)`, Unicode scalars (thorough: all 1.1 M) alone/after a backslash/next to a control character, random bytes and text, the decoder alone on all expressions up to 4 symbols, the UTF-8 decoder against String::from_utf8.",
        "design_ref": "DESIGN.md §6 C11",
        "note": "Trusted: kernel + 3 axioms, harness, statement reading. is_other is a parameter (AsciiContract assumed, real classification passed per case); from_utf8_lossy only via the equality test (see trusted_base). Defects repaired by fix: b3e4df7 (unicode mode never doubled backslashes) and c1bf05c (a tailing ` (no-eol)` of the escaped text was stripped by EscapedRule::make; oracle class C11:no-eol-suffix-stripped stays as regression class).",
        "technique": "Lean 4 inverse-function proof (token-wise, two decoder passes) on executable model + exhaustive/differential correspondence + read-back oracle on the real code",
    },
    "C07": {
        "text": "Machine-checked over the model of CramParser::parse + LineParser: parsing is total, failing only with one of the six line_parser errors (C07_no_crash); for every indentation >= 1 and every document built from titles, blank lines, # comments (also between the lines of a test), commands with > continuations, expectation lines (incl. empty / whitespace-only) and one [n] line per test, parse(render d) = exactly the tests written: one per `$ ` line, in order, command lines, expectation texts with only the indentation removed, exit code, 1-based line, title = last title line since the previous command, Cram defaults (C07_wellformed); for EVERY text that parses, the tests are in order-preserving one-to-one correspondence with the indented `$ ` lines (C07_one_test_per_command), each command/expectation text stems from an indented non-# line (C07_comments_inert, C07_comment_line_skipped) and every test carries default_cram, the document default_cram (C07_defaults, C07_defaults_values). PARTIAL: the title is the nearest preceding title line only when each title is followed by one command (C07_title_nearest_partial; witness T/$ a/$ b: C07_title_nearest_fails_on_witness)). For EVERY text, an indented expectation/[n]/> line while no command is open makes the document fail (C07_orphan_lines_rejected; regressions C07_orphan_exit_code_regression, C07_orphan_expectation_regression). Tie to code: ~400k exhaustive small documents over a single-space-neighbour line alphabet + AST-directed and raw random documents through the real CramParser, all fields compared.",
        "design_ref": "DESIGN.md §6 C07",
        "note": "Trusted: Lean kernel + 3 standard axioms, the correspondence harness, statement reading. Expectation parsing is a parameter (C08 covers it). Open deviation: C07:title-not-nearest (second command below a title has title \"\"; intended upstream). Repaired by fix: 67abd12 (indented lines above a command were adopted by the next command; oracle class now C07:orphan-line-accepted).",
        "technique": "Lean 4 theorems on an executable model of the Cram/line parser (round trip for documents by construction + loop invariants for all texts) + exhaustive differential correspondence",
    },
    "C06": {
        "text": "Machine-checked for all documents: the Markdown parser model never reaches a panic (every slice of extract_code_block_start is on a character boundary, every line_index-1 is defined: C06_no_crash); the tokenizer always runs to the end and its tokens partition the document - every line in exactly one token, in order, with its own index, closing line = first line starting with the opening fence (C06_tokens_cover); unterminated front-matter, foreign and scrut blocks hold all remaining lines (C06_unterminated_*). For every document of the generator's grammar - prose lines (anything that is not a fence start), front-matter while no content has started (YAML opaque), foreign code blocks (any fence length, closing line = any line starting with the opening fence, e.g. a longer fence; body may hold $ lines, shorter fences, ---), scrut blocks without command, scrut blocks with {config}, comments, $ line, > lines, expectation lines with at most one exit code line anywhere - the parser yields exactly the front-matter texts and one test per block with a command, in order, with the shell expression, expectation texts, exit code, configuration text, 1-based line number of the $ line and title as written (C06_wellformed, C06_wellformed_lines, C06_wellformed_cores; the title logic across foreign blocks and command-less blocks is stated in expectedTests); inserting a prose line, a foreign block or a command-less block behind the front-matter changes neither the document configuration nor count, order and content of the tests (C06_prose_inert, C06_other_blocks_inert, C06_inert_items). Documents whose LAST construct is unterminated (front-matter without closing --- while no content has started, foreign block, scrut block without or with a command without closing fence) are covered by the same theorem extended by a Tail (C06_wellformed_tail): the open construct is read to the end of the document and yields exactly what the closed one would (front-matter text; test with command, expectations, exit code, configuration, line number of the $ line, collected title), i.e. removing the last closing line of a well-formed document does not change the result (C06_wellformed_tail_as_closed, C06_last_closing_line_optional); an unterminated bare fence is still MissingLanguageSpecifier. The by-construction oracle covers this grammar with the stream ast-open-tail (every tail kind) and all line-prefixes of generated documents. Tie to code: 1.04M documents per quick run (exhaustive <= 5 lines over a 15-line alphabet, exhaustive fence lines, AST-directed, prefixes, malformed) through the real MarkdownParser with 0 disagreements. Four stricter readings found by this check (C06:state-leak, C06:bare-long-fence, C06:info-string-whitespace, C06:config-dropped) were repaired by fix: commits; their witnesses stay in the harness as regression cases and as closed Lean examples.",
        "design_ref": "DESIGN.md §6 C06",
        "note": "Trusted: Lean kernel + 3 standard axioms, the correspondence harness, statement reading. Expectation grammar (C08), YAML (C17), config layering (C16) and \\p{L} are parameters fed from the real code per case. Defects repaired by fix: commits a8558a7, 2f2d0a7, 0557cd9, 41f3a85 (before this check) and d36f745, d82a4b7, 0c1f918 (found by it).",
        "technique": "Lean 4 theorems on an executable model of tokenizer+parser+LineParser + differential correspondence (exhaustive small scope, AST-directed by-construction oracle, prefixes, malformed)",
    },
    "C19": {
        "text": "Machine-checked (Lean 4, any diff, any max_surrounding_lines): every unmatched expectation and every line of every unexpected block is among the items the pretty renderer emits and among the -/+ lines of the unified diff, and the pretty renderer emits nothing that is not an entry of the diff (C19_all_shown_pretty, C19_all_shown_rendered, C19_only_differences_pretty, C19_all_shown_unified); none of the panicking operations of render_malformed_output (line_base, + max_surrounding_lines, lines[0], Decorator width - digits) fails for any diff satisfying C02's well-formedness with the test case's own expectations, hence for every diff the matcher can produce (C19_no_panic, C19_no_panic_matcher; the explicit domain is Dom, and C19_panics_outside_domain shows it is necessary for hand-built Diff values); space_start_index is a character boundary of every string, so the two slices of higlight_tailing_spaces succeed (C19_space_index; the pre-fix code fails on foo+U+3000 in the model: C19_old_space_index_failed_on_witness); outcomes that passed get no section in the pretty and diff renderings and every failed one gets its pretty section (C19_no_section_for_pass, C19_failed_has_section). Tie to code: all four renderers in-process on exhaustive small scopes (strings over an 11-symbol Unicode alphabet, all diff shapes up to length 7, all kind sequences up to 3) and seeded cases incl. diffs by the real DiffTool, arbitrary hand-built diffs, invalid UTF-8, 10^5-character lines; the rendered text is parsed back (number columns, symbols, hunk headers, section titles, summary) and compared with the model; direct oracles: no panic inside the domain, every difference on a line of its own with its full (escaped) text, JSON/YAML parse back with one entry per outcome and the right result.kind.",
        "design_ref": "DESIGN.md §6 C19",
        "note": "Trusted: Lean kernel + 3 standard axioms, the correspondence harness, statement reading. Not modelled: ANSI styling, text escaping (C11), serde (JSON/YAML well-formedness is checked by parsing the real output only). The library API accepts Diff values the matcher cannot produce; for those the renderer can panic (index beyond the test case, empty matched entry, max_surrounding_lines near usize::MAX) - model and code agree on exactly which. DiffRenderer returns an error for a mix of located and unlocated outcomes (not reachable from the command line, every outcome there has a location). Two defects were repaired by fix: commits (6e80f5e, bcb9200).",
        "technique": "Lean 4 theorems on an executable model of the renderers' decision logic with checked arithmetic + differential correspondence on parsed renderings + direct oracles on all four renderers",
    },
    "C13": {
        "text": "PARTIAL. Machine-checked for the logic scrut contributes: (a) template rendering: if after the four other substitutions the expression placeholder occurs exactly once (decidable, evaluated on the current template at every run) there are fixed pre/post such that for EVERY expression, also ones containing placeholder names, the script handed to the shell is pre ++ expression ++ post (C13_expression_verbatim; C13_replace_absent/once about str::replace; C13_expression_hypothesis_needed shows the hypothesis is necessary); (b) replace_crlf: the loop never slices out of range and equals the specification 'drop a byte iff it is CR and the next is LF' for outputs of any size, only CRs disappear, order kept, CR CR LF keeps one CR (C13_crlf, C13_crlf_characterisation); render_output is the identity under keep_crlf, never consults the ANSI stripper unless strip_ansi_escaping, and strips after CRLF processing (C13_keep_crlf_identity, C13_no_strip_only_crlf, C13_strip_after_crlf); with strip_ansi_escaping the stripper is scrut's own strip_ansi_sequences_bytes (Model/StripAnsi.lean, after fix 9d4fe80): the recorded bytes are a subsequence of the processed bytes, hold no ESC, are the processed bytes themselves when those hold no ESC (TAB, CR, BEL, invalid UTF-8 survive), a CSI sequence goes as a whole and stripping is idempotent (C13_strip_only_escape_sequences, C13_strip_csi, C13_strip_idempotent; tied by every byte string up to length 4/5 over the 14 bytes that steer the state machine + random bytes, against the model and an ECMA-48 reference); (c) single-script mode: for any salt without ':', '~', LF (the real one is 20 random alphanumeric characters per execution), any payloads (empty, unterminated, arbitrary bytes) that do not contain the divider start of this very execution (~~~~~~~~EXECDIVIDER::<salt>::) and exit codes < 2^31 other than the skip code, splitting the streams 'payload, divider line' returns every test's own stdout, stderr and exit code, separated or merged (C13_stream_roundtrip_partial, C13_divider_roundtrip_partial, C13_divider_roundtrip_combined_partial). Output that merely looks like a divider (bare prefix, complete divider lines with another salt) is output: C13_divider_lookalike_is_output (regression for fix 05d9dbd); some guard is unavoidable for an in-band protocol (C13_divider_guard_needed). NOT proved, exercised with real processes on every run: what bash does with the script text, pipe capacity/deadlock with megabytes on both streams at once, Redirection::Merge ordering, stack depth; exit codes 0..255, NUL bytes, all byte values, both executors, all output_stream/keep_crlf/strip_ansi settings, with the bytes the payload program was told to write as oracle.",
        "design_ref": "DESIGN.md §6 C13",
        "note": "Partial by nature: bash, pipes and the OS are not modelled. Trusted: kernel + 3 standard axioms, the correspondence harness, statement reading; shell_escape is a parameter; the `strip-ansi-escapes` crate is no longer on the recording path. Defects repaired by fix: 9d4fe80 (strip_ansi_escaping dropped TAB/CR/BEL and replaced invalid UTF-8), 35f71bc (placeholders inside the user's expression were substituted), 4cdb4c6 (recursive replace_crlf overflowed the stack), 05d9dbd (the divider parser ignored the salt: divider-shaped output broke the document), 1cc9f8c (remove_dividers_from_output doubled newlines of output captured before a document timeout). remove_dividers_from_output (timeout path only) still drops every line that starts with the bare prefix, whatever its salt (modelled as it is; outside the statement, which is about completed test cases).",
        "technique": "Lean 4 theorems on executable models of template rendering, CRLF replacement and the divider protocol + differential correspondence with real processes (cat/replay/capture shells, real bash) + direct byte/exit-code oracles",
    },
    "C17": {
        "text": "Machine-checked for ALL configurations of the model's config type (C17_one_liner): any subset of the 8 keys, any stream/booleans/i32 skip code, any Duration, wait in both forms with any path, environment with arbitrary names and values (quotes, backslashes, colons, braces, commas, #, blanks, control characters, any Unicode) is read back from its one-line `{...}` form exactly, under the decidable guard Renderable = durations are Durations (secs < 2^64, nanos < 10^9), skip code is an i32, every environment name renders to a key of at most 1024 UTF-8 bytes. Each conjunct is shown necessary by a witness theorem (C17_guard_secs, C17_guard_nanos, C17_guard_skip_code, C17_guard_long_name + C17_fails_on_long_name); non-vacuity: C17_renderable_example. Ingredients, each for all values: humantime parse(format d) = d (C17_duration_roundtrip), yaml_quoted is inverted by the double-quoted scalar scanner in any context (C17_quote_roundtrip, C17_quoted_scalar_in_context), the flow parser reads back any rendered pieces whose plain scalars are tokens (C17_rendered_ast_reads_back). The model (renderer, humantime, flow-YAML subset, serde typed layer) is tied to the real to_yaml_one_liner / serde_yaml / humantime on every run: every key subset, an 82-string alphabet in every string position and all name x value pairs, names of 1020-1027 bytes, random configs and grammar-generated flow mappings, plus the direct round-trip oracle on the real code. Open findings: environment names over 1024 bytes do not read back (C17:long-key, excluded by the guard); a total_timeout of 900 whole seconds is not serialised in front-matter (C17:default-total-timeout-not-serialised). Front-matter and the code-fence embedding are oracle-only.",
        "design_ref": "DESIGN.md §6 C17",
        "note": "Trusted: kernel + axioms, harness, serde_yaml/libyaml/serde_json/humantime as the reference the model is compared with (parseFlow is a model of serde_yaml on the flow subset, not serde_yaml itself); inputs with YAML line-break characters are outside the modelled parser subset (never produced by the renderer: proved). Defects repaired by fix: ccd71db (unescaped quotes/backslashes), d9da776 (characters YAML cannot read back).",
        "technique": "Lean 4 theorems on executable models of humantime and of the one-liner renderer / flow-YAML subset / serde typed layer + differential correspondence with serde_yaml + direct round-trip oracle on the real code",
    },
    "C12": {
        "text": "PARTIAL. Machine-checked: (1) for ANY shell semantics and carrier, if restoring what was persisted is observationally equivalent (CarrierTransparent), one-process-per-test execution of any history yields exactly the outputs of a single session, and detached steps leave nothing behind (C12_refines_single_session, C12_detached_leaves_nothing); (2) for the variable carrier as the template implements it, the refinement holds for every history that creates no read-only variable and never unsets an inherited variable (C12_vars_carried_partial); both excluded classes are proved to deviate (witness theorems) and are listed as known findings, reproduced against real bash on every run. That bash + the template are transparent for the other state classes (functions, aliases, shopt/set, arrays, cwd, dirstack, quoting) is sampled on every run against a single bash session (961 exhaustive pairs + seeded longer histories), not proved.",
        "design_ref": "DESIGN.md §6 C12",
        "note": "Partial by nature: CarrierTransparent is a fact about bash 5.2; the theorem is the simulation argument and the concrete variable carrier. Two open known findings (unset of inherited variable; read-only variables).",
        "technique": "Lean 4 simulation theorem (parametric) + executable model of the variable carrier + differential runs against real bash (per-process vs single session)",
    },
    "C18": {
        "text": "PARTIAL. Machine-checked: for any sequence of requested directory names and any disk state, UniqueNamer hands out pairwise distinct names that were not handed out before and do not exist on disk (C18_names_distinct, C18_next_free). Not provable in this family and therefore exercised on every run against the built binary: one working directory per document shared by its test cases and by no other document, the documented variables (TESTDIR, TESTFILE, TESTSHELL, TMPDIR, LANG, LANGUAGE, LC_ALL, TZ, COLUMNS, CDPATH, GREP_OPTIONS, SCRUT_TEST=<path>:<line>) in every test case, nothing left in TMPDIR after success / failure / timeout / skip / parse error / killed shell / missing shell, --work-directory kept and its inner temp directory removed, --keep-temporary-directories leaving exactly execution.*/temp.*, three scrut processes at once. One known finding: under --work-directory all documents share the user's directory (documented behaviour of the flag).",
        "design_ref": "DESIGN.md §6 C18",
        "note": "Partial: only the namer bookkeeping is a theorem; TempDir/Drop/OS behaviour is observed end-to-end (oracle-only streams). SCRUT_TEST per test case is also checked in-process by the C05/C14 scripted-runner stream.",
        "technique": "Lean 4 theorem on the namer model + correspondence with the real namer source + e2e observation of directories and environment",
    },
    "C05": {
        "text": "Machine-checked theorems over the model of validate / executor / result mapping: validate = ok iff an exit code was produced, equals the expected one and the configured stream is accepted (C05_succeeds_iff); wrong code reported regardless of output; no exit code => never succeeded; and for every runner behaviour a test case is reported succeeded only if the runner was really called for it and returned the expected code (C05_succeeded_only_if_ran: nothing after an aborted execution passes). Tie to code: exhaustive validate table, exhaustive scripted status sequences through the real StatefulExecutor, end-to-end runs with real bash (exit N, kill -9 $$, timeouts, detached).",
        "design_ref": "DESIGN.md §6 C05",
        "note": "Trusted: Lean kernel + 3 standard axioms, the correspondence harness, statement reading. Output acceptance is a Boolean here (C01-C03 cover it). That a signal-killed bash surfaces as Signaled is OS behaviour, sampled end-to-end. Two genuine defects were repaired by fix: commits (fd07654, c9a8c06).",
        "technique": "Lean 4 theorems on an executable model of verdict+executor + differential correspondence (exhaustive table, scripted runner, e2e binary)",
    },
    "C14": {
        "text": "Machine-checked: the limit handed to a runner is min(per-test, remaining document limit), attributed to the document exactly when that is strictly smaller (C14_effective_is_min); on a timeout the test is reported failed/timeout, all later ones skipped, none passed (C14_abort_and_skip); with an honest runner a timeout is reported only if the command ran at least as long as the limit handed (C14_no_spurious) and always when it did (C14_enforced). Tie to code: the real StatefulExecutor with a scripted runner recording the limit it is handed for every per-test x document limit combination, plus wall-clock documents with real sleeps. PARTIAL: wall-clock enforcement itself is runtime behaviour, exercised end-to-end with margins, not proved.",
        "design_ref": "DESIGN.md §6 C14",
        "note": "Partial: the model's clock is arithmetic; that SubprocessRunner stops waiting at the limit, and elapsed-time accounting by Instant, are exercised with real processes only. Defect repaired by fix: 8ad4e6f (per-test limit always won).",
        "technique": "Lean 4 theorems on executor model with honest-runner contract + scripted-runner correspondence + timed e2e runs",
    },
    "C15": {
        "text": "Machine-checked: execution ends as skipped only because a test exited with its own skip code (default 80 or configured) or was reported skipped (C15_skip_cause); a skipped document reports every test skipped, none failed/passed, and is neutral for the exit status (C15_skip_all, C15_others_unaffected); a regularly ending document reports no skipped test, and after a timeout exactly the later tests are skipped (C15_no_spurious_skip, C15_skipped_after_timeout). Tie to code: scripted status sequences with default/custom skip codes through the real StatefulExecutor, end-to-end Markdown and Cram documents.",
        "design_ref": "DESIGN.md §6 C15",
        "note": "As C05. The Cram path (BashScriptExecutor) is modelled for scripts that run to their end (execScript) and compared end-to-end only.",
        "technique": "Lean 4 theorems on executor/result-mapping model + scripted-runner correspondence + e2e binary",
    },
    "C16": {
        "text": "Machine-checked: for each of the 7 scalar keys the effective value is the first of [command line, inline, document defaults, format] that sets it (C16_scalar); for every environment variable the first of [scrut's own, command line, inline, defaults, format] that binds it (C16_env); layering is associative, the empty layer is neutral, prepend/append accumulate (C16_assoc, C16_empty, C16_lists); document keys: command line > front-matter > format (C16_document). The model composes the layers in the order parser, test command and executor do. Tie to code: exhaustive {unset,A,B}^4 per key and all environment overlap patterns through the real functions, random triples for associativity, 108 end-to-end runs observing the effective stream and variable.",
        "design_ref": "DESIGN.md §6 C16",
        "note": "Trusted: kernel + axioms, harness. YAML parsing of layers belongs to C17. Defect repaired by fix: 0b77d2c (defaults' environment won over inline).",
        "technique": "Lean 4 algebraic laws on config-layering model + exhaustive differential correspondence + e2e observation",
    },
    "C20": {
        "text": "Machine-checked: the runner is called once per test case for a prefix 0..k-1 in order, for all of them on a regular end (C20_calls); reported results have strictly increasing indices (at most one per test), exactly one for every non-detached test on the regular path (C20_one_result); exit status is 1 iff a document could not be processed, else 50 iff some outcome is a failure (anything but success/skipped), else 0 (C20_exit_status, C20_failure_kinds); prepend/own/append order (C20_assemble). Tie to code: scripted runner call order in-process; end-to-end runs over 1-3 mixed Markdown/Cram documents with a marker file recording execution order, `-r json` results and the process exit status, incl. unparsable documents.",
        "design_ref": "DESIGN.md §6 C20",
        "note": "As C05. prepend/append via front-matter and -P/-A and directory arguments are exercised end-to-end only (thorough tier).",
        "technique": "Lean 4 theorems on executor/aggregation model + e2e binary correspondence (marker order, json, exit status)",
    },
    "C01": {
        "text": "Machine-checked theorem (Lean 4, no bound on the number of expectations or lines, any rule implementation): a diff without differences yields an in-order, gap-free assignment of lines to expectations respecting every quantifier (C01_no_false_pass). The model is the transliteration of DiffTool::diff; it is tied to the current source on every run by exhaustive differential execution over all quantifier vectors x match matrices up to 3x4 (thorough: 3x5, 4x4) through the real ExpectationMaker/DiffTool, plus random larger cases through all real rule kinds. A DP language-membership oracle on the real code searches for a failing input when anything breaks.",
        "design_ref": "DESIGN.md §6 C01",
        "note": "Trusted: Lean kernel (+propext, Classical.choice, Quot.sound), statement reading, the correspondence harness; the model is hand-written and tied to the code behaviourally, not by translation; rule matching is a parameter (theorem holds for any rule).",
        "technique": "Lean 4 theorem over executable model + differential correspondence (exhaustive small scope) + DP membership oracle",
    },
    "C02": {
        "text": "Machine-checked theorem: for all n, m, quantifiers and matrices the diff mentions every line exactly once in order, expectation indices strictly increasing and in range, every non-optional expectation mentioned, matched entries really match / non-empty / single unless multiline, only non-optional ones unmatched (C02_conservation, from the loop invariant LInv). Termination is the Lean termination proof of the loop. Same correspondence as C01; the direct oracle recomputes the conjuncts (incl. line contents) on the real Diff.",
        "design_ref": "DESIGN.md §6 C02",
        "note": "As C01. Rust index panics are covered by running the real code under catch_unwind on the whole scope, and by the invariant (ms = some s -> ei < n) that justifies the post-loop index; stack/memory limits are not modelled.",
        "technique": "Lean 4 loop-invariant proof + differential correspondence + conservation oracle",
    },
    "C03": {
        "text": "Machine-checked theorems: under one-line-lookahead determinism (Det) NFA acceptance implies no differences (C03_complete), hence hasDiff = false <-> Assignment (C03_iff); every quantifier-free list is deterministic and its own lines pass (C03_own_lines); the determinism hypothesis is necessary (greedy_incomplete_witness). Same correspondence as C01; the oracle computes Det and membership independently on the real result.",
        "design_ref": "DESIGN.md §6 C03",
        "note": "As C01. Det is the formalisation of 'at most one of the expectations that could legally come next matches the current line'.",
        "technique": "Lean 4 theorem (simulation of the deterministic NFA by the greedy loop) + differential correspondence + Det/membership oracle",
    },
}

# properties whose machinery is merged but being brought up to date with fix commits: not claimed yet
PENDING = set()

WIP = "not yet claimed: model, theorems and correspondence for this property are still being built (see DESIGN.md §11); nothing is asserted about it"
NOT_APPLICABLE = [{"property_id": "C%02d" % i, "reason": WIP} for i in range(1, 21) if "C%02d" % i not in PROPS or "C%02d" % i in PENDING]
