"""Per-property configuration of ./check (what is trusted, how cases are generated)."""

KERNEL = "Lean 4.33.0 kernel; axioms allowed: propext, Classical.choice, Quot.sound (audited per theorem, no native_decide)"
CORR = "correspondence harness /verif/harness (generators, canonicaliser, Lean driver line protocol, direct oracles)"
RUSTC = "rustc/std, the crates scrut depends on"

MATCHER_TB = [
    KERNEL,
    "the theorem statements in lean/ScrutModel/Props being a faithful reading of the property",
    CORR,
    "hand-written model lean/ScrutModel/Model/Diff.lean of DiffTool::diff (src/diff.rs:90-305), tied to the code by behavioural correspondence only",
    "rule matching is a parameter of the model (any Boolean matrix): the theorems hold for every rule implementation; that DiffTool consults rules only through Expectation::matches(line) is checked by correspondence",
    RUSTC,
]
MATCHER_RULE = (
    "cases = (quantifier vector, match matrix) driven through the real ExpectationMaker+DiffTool: exhaustive over all sizes of the scope via a registered `bits` rule, "
    "the small scope again via real regex alternations, plus seeded random cases (near-matching outputs through all real rule kinds; large random matrices). "
    "non-trivial = at least one optional or multiline expectation and at least one matching and one non-matching matrix cell; distinct = distinct model op line"
)
MATCHER_ASSUME = [
    "the Lean model is tied to the Rust code by differential execution on the enumerated/generated cases, not by translation",
    "Expectation::matches is deterministic and depends only on (expectation, line)",
]

PROPS = {
    "C01": {"rule": MATCHER_RULE, "trusted_base": MATCHER_TB, "assumptions": MATCHER_ASSUME},
    "C02": {"rule": MATCHER_RULE, "trusted_base": MATCHER_TB, "assumptions": MATCHER_ASSUME},
    "C03": {"rule": MATCHER_RULE, "trusted_base": MATCHER_TB, "assumptions": MATCHER_ASSUME},
}

MANIFEST_TEXT = {
    "C01": {
        "text": "Machine-checked theorem (Lean 4, no bound on the number of expectations or lines, any rule implementation): a diff without differences yields an in-order, gap-free assignment of lines to expectations respecting every quantifier (C01_no_false_pass). The model is the transliteration of DiffTool::diff; it is tied to the current source on every run by exhaustive differential execution over all quantifier vectors x match matrices up to 3x4 (thorough: 3x5, 4x4) through the real ExpectationMaker/DiffTool, plus random larger cases through all real rule kinds. A DP language-membership oracle on the real code searches for a failing input when anything breaks.",
        "design_ref": "DESIGN.md §6 C01",
        "note": "Trusted: Lean kernel (+propext, Classical.choice, Quot.sound), statement reading, the correspondence harness; the model is hand-written and tied to the code behaviourally, not by translation; rule matching is a parameter (theorem holds for any rule).",
        "technique": "Lean 4 theorem over executable model + differential correspondence (exhaustive small scope) + DP membership oracle",
    },
    "C02": {
        "text": "Machine-checked theorem: for all n, m, quantifiers and matrices the diff mentions every line exactly once in order, expectation indices strictly increasing and in range, every non-optional expectation mentioned, matched entries really match / non-empty / single unless multiline, only non-optional ones unmatched (C02_conservation, from the loop invariant LInv). Termination is the Lean termination proof of the loop. Same correspondence as C01; the direct oracle recomputes the conjuncts (incl. line contents) on the real Diff.",
        "design_ref": "DESIGN.md §6 C02",
        "note": "As C01. Rust index panics are covered by running the real code under catch_unwind on the whole scope, and by the invariant (ms = some s -> ei < n) that justifies the post-loop index; stack/memory limits are not modelled.",
        "technique": "Lean 4 loop-invariant proof + differential correspondence + conservation oracle",
    },
    "C03": {
        "text": "Machine-checked theorems: under one-line-lookahead determinism (Det) NFA acceptance implies no differences (C03_complete), hence hasDiff = false <-> Assignment (C03_iff); every quantifier-free list is deterministic and its own lines pass (C03_own_lines); the determinism hypothesis is necessary (greedy_incomplete_witness). Same correspondence as C01; the oracle computes Det and membership independently on the real result.",
        "design_ref": "DESIGN.md §6 C03",
        "note": "As C01. Det is the formalisation of 'at most one of the expectations that could legally come next matches the current line'.",
        "technique": "Lean 4 theorem (simulation of the deterministic NFA by the greedy loop) + differential correspondence + Det/membership oracle",
    },
}

WIP = "not yet claimed: model, theorems and correspondence for this property are still being built (see DESIGN.md §11); nothing is asserted about it"
NOT_APPLICABLE = [{"property_id": "C%02d" % i, "reason": WIP} for i in range(1, 21) if "C%02d" % i not in PROPS]
