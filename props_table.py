"""Per-property configuration of ./check (what is trusted, how cases are generated)."""

KERNEL = "Lean 4.33.0 kernel; axioms allowed: propext, Classical.choice, Quot.sound (audited per theorem, no native_decide)"
CORR = "correspondence harness /verif/harness (generators, canonicaliser, Lean driver line protocol, direct oracles)"
RUSTC = "rustc/std, the crates scrut depends on"

MATCHER_TB = [
    KERNEL,
    "the theorem statements in lean/ScrutModel/Props being a faithful reading of the property",
    CORR,
    "hand-written model lean/ScrutModel/Model/Diff.lean of DiffTool::diff (src/diff.rs:90-305), tied to the code by behavioural correspondence only",
    "rule matching is a parameter of the model (any Boolean matrix): the theorems hold for every rule implementation; that DiffTool consults rules only through Expectation::matches(line) is checked by correspondence",
    RUSTC,
]
MATCHER_RULE = (
    "cases = (quantifier vector, match matrix) driven through the real ExpectationMaker+DiffTool: exhaustive over all sizes of the scope via a registered `bits` rule, "
    "the small scope again via real regex alternations, plus seeded random cases (near-matching outputs through all real rule kinds; large random matrices). "
    "non-trivial = at least one optional or multiline expectation and at least one matching and one non-matching matrix cell; distinct = distinct model op line"
)
MATCHER_ASSUME = [
    "the Lean model is tied to the Rust code by differential execution on the enumerated/generated cases, not by translation",
    "Expectation::matches is deterministic and depends only on (expectation, line)",
]

PROPS = {
    "C01": {"rule": MATCHER_RULE, "trusted_base": MATCHER_TB, "assumptions": MATCHER_ASSUME},
    "C02": {"rule": MATCHER_RULE, "trusted_base": MATCHER_TB, "assumptions": MATCHER_ASSUME},
    "C03": {"rule": MATCHER_RULE, "trusted_base": MATCHER_TB, "assumptions": MATCHER_ASSUME},
}

EXEC_TB = [
    KERNEL,
    "the theorem statements in lean/ScrutModel/Props being a faithful reading of the property",
    CORR,
    "hand-written model lean/ScrutModel/Model/Exec.lean of TestCase::validate, StatefulExecutor::execute_all, BashScriptExecutor's skip handling, the result mapping of `scrut test` and main's exit status; tied to the code by correspondence (in-process for the library parts, end-to-end through the built binary with real bash for src/bin)",
    "output acceptance by expectations enters the model as a Boolean (it is the subject of C01-C03)",
    "time is a natural number of milliseconds in the model; wall-clock enforcement, process creation/killing and signal delivery are OS behaviour, exercised end-to-end only",
    "bash 5.2, subprocess crate, serde_json (to read `-r json`)",
    RUSTC,
]
EXEC_RULE = (
    "(1) exhaustive decision table of TestCase::validate (status x expected code x stream x acceptance); (2) the real StatefulExecutor with a scripted Runner: every status sequence "
    "over {0,1,80,7,timeout,skipped,detached,unknown} up to length 3 (thorough 4) x document limit {absent,0,2s,60s} with seeded per-test fields, comparing result, outputs and the limit handed to each runner call; "
    "(3) seeded end-to-end runs of the built binary over 1-3 Markdown/Cram documents whose tests pass/fail on output/fail on code/skip/time out/are killed/detach, comparing `-r json` kinds, exit status, execution order (marker file) and TMPDIR leftovers; "
    "(4, C14 and thorough) wall-clock documents. non-trivial = at least two test cases; distinct = distinct model op line"
)
EXEC_ASSUME = [
    "the Lean model is tied to the Rust code by differential execution, not by translation",
    "end-to-end timing cases use generous margins (limits 300 ms - 1 s against sleeps of 2.5 - 3 s)",
]
for _p in ("C05", "C14", "C15", "C20"):
    PROPS[_p] = {"rule": EXEC_RULE, "trusted_base": EXEC_TB, "assumptions": EXEC_ASSUME, "needs_bin": True}

CONFIG_TB = [
    KERNEL,
    "the theorem statements in lean/ScrutModel/Props being a faithful reading of the property",
    CORR,
    "hand-written model lean/ScrutModel/Model/Config.lean of TestCaseConfig/DocumentConfig layering (src/config.rs) and of the order in which parser, test command and executor compose the layers; BTreeMap modelled as insertion list with last-binding-wins lookup",
    "values are abstract (natural numbers); serde_yaml parsing of the layers is not part of this property (see C17)",
    RUSTC,
]
CONFIG_RULE = (
    "exhaustive {unset,A,B}^4 over the four layers for each of the 7 scalar keys; every subset of three variable names per environment layer (inline, defaults, scrut's own) = 512 overlap patterns; "
    "seeded random full configurations through the composed pipeline; associativity/empty-layer/list accumulation on random triples of both structs; 108 end-to-end runs of the binary observing which stream is compared and which FOO value a test sees "
    "for every assignment of {cli, inline, defaults} layers. non-trivial = some key or variable set in at least two layers; distinct = distinct model op line"
)
PROPS["C16"] = {"rule": CONFIG_RULE, "trusted_base": CONFIG_TB, "assumptions": ["the Lean model is tied to the Rust code by differential execution, not by translation"], "needs_bin": True}

PROPS["C18"] = {
    "rule": "(1) the real UniqueNamer (src/bin/utils/namer.rs compiled into the harness via #[path]) on a real directory vs the Lean model: every request sequence up to length 4 over {a, a-1, b} x every subset of pre-existing {a, a-1, a-2, b}, plus seeded longer sequences; "
            "(2) oracle-only end-to-end runs of the binary: 1-3 documents (identical file names in different directories, Markdown or Cram) x outcome class {pass, fail, timeout, skip, parse error, killed} x mode {default, --work-directory, --keep-temporary-directories, missing shell}: pwd/env probes written by the tests, TMPDIR and user directory listings afterwards; three concurrent scrut processes. "
            "non-trivial = namer case with at least two requests (e2e cases are counted as evaluations only)",
    "trusted_base": [KERNEL, "the theorem statements being a faithful reading of the (partial) property", CORR,
                     "hand-written model lean/ScrutModel/Model/Namer.lean of UniqueNamer::next_name (counter loop with explicit fuel; termination of the Rust loop on an infinite set of existing names is not claimed)",
                     "tempfile::TempDir (creation, uniqueness, removal on Drop), Drop order in `scrut test`, the OS file system, bash: exercised end-to-end, not proved", RUSTC],
    "assumptions": ["directory removal is Rust Drop semantics of tempfile::TempDir; it is observed, not proved", "e2e observations are taken through files the tests write into a probe directory"],
    "needs_bin": True,
}

PROPS["C12"] = {
    "rule": "histories of state-changing bash snippets (31 snippets covering shell/exported variables with spaces, quotes, newlines, non-ASCII, arrays, associative arrays, functions incl. nested, aliases, shopt, set -o, cwd, directory stack, unset, read-only, detached) each followed by a probe of all state classes: every single snippet and every ordered pair exhaustively, plus seeded histories of length 2-8; "
            "each history is run (a) through the real StatefulExecutor+BashRunner (one bash per test case), (b) through one bash session (oracle), (c) its variable actions through the Lean model of the carrier (correspondence with (a)). non-trivial = at least two steps",
    "trusted_base": [KERNEL, "the theorem statements being a faithful reading of the (partial) property", CORR,
                     "bash 5.2 and the 60-line template src/executors/bash_runner.template: transparency of the carrier for functions, aliases, options, arrays, cwd and the directory stack is SAMPLED against a single bash session, not proved",
                     "hand-written model lean/ScrutModel/Model/ShellState.lean of the variable carrier (bindings recorded, unsets not recorded, read-only/excluded names filtered, new processes start from scrut's own environment)", RUSTC],
    "assumptions": ["the single-session oracle feeds the same snippets to one non-interactive bash with expand_aliases on; a detached step is a subshell there", "process-specific values ($$, BASHPID, SHLVL, RANDOM) are not probed"],
}

MANIFEST_TEXT = {
    "C12": {
        "text": "PARTIAL. Machine-checked: (1) for ANY shell semantics and carrier, if restoring what was persisted is observationally equivalent (CarrierTransparent), one-process-per-test execution of any history yields exactly the outputs of a single session, and detached steps leave nothing behind (C12_refines_single_session, C12_detached_leaves_nothing); (2) for the variable carrier as the template implements it, the refinement holds for every history that creates no read-only variable and never unsets an inherited variable (C12_vars_carried_partial); both excluded classes are proved to deviate (witness theorems) and are listed as known findings, reproduced against real bash on every run. That bash + the template are transparent for the other state classes (functions, aliases, shopt/set, arrays, cwd, dirstack, quoting) is sampled on every run against a single bash session (961 exhaustive pairs + seeded longer histories), not proved.",
        "design_ref": "DESIGN.md §6 C12",
        "note": "Partial by nature: CarrierTransparent is a fact about bash 5.2; the theorem is the simulation argument and the concrete variable carrier. Two open known findings (unset of inherited variable; read-only variables).",
        "technique": "Lean 4 simulation theorem (parametric) + executable model of the variable carrier + differential runs against real bash (per-process vs single session)",
    },
    "C18": {
        "text": "PARTIAL. Machine-checked: for any sequence of requested directory names and any disk state, UniqueNamer hands out pairwise distinct names that were not handed out before and do not exist on disk (C18_names_distinct, C18_next_free). Not provable in this family and therefore exercised on every run against the built binary: one working directory per document shared by its test cases and by no other document, the documented variables (TESTDIR, TESTFILE, TESTSHELL, TMPDIR, LANG, LANGUAGE, LC_ALL, TZ, COLUMNS, CDPATH, GREP_OPTIONS, SCRUT_TEST=<path>:<line>) in every test case, nothing left in TMPDIR after success / failure / timeout / skip / parse error / killed shell / missing shell, --work-directory kept and its inner temp directory removed, --keep-temporary-directories leaving exactly execution.*/temp.*, three scrut processes at once. One known finding: under --work-directory all documents share the user's directory (documented behaviour of the flag).",
        "design_ref": "DESIGN.md §6 C18",
        "note": "Partial: only the namer bookkeeping is a theorem; TempDir/Drop/OS behaviour is observed end-to-end (oracle-only streams). SCRUT_TEST per test case is also checked in-process by the C05/C14 scripted-runner stream.",
        "technique": "Lean 4 theorem on the namer model + correspondence with the real namer source + e2e observation of directories and environment",
    },
    "C05": {
        "text": "Machine-checked theorems over the model of validate / executor / result mapping: validate = ok iff an exit code was produced, equals the expected one and the configured stream is accepted (C05_succeeds_iff); wrong code reported regardless of output; no exit code => never succeeded; and for every runner behaviour a test case is reported succeeded only if the runner was really called for it and returned the expected code (C05_succeeded_only_if_ran: nothing after an aborted execution passes). Tie to code: exhaustive validate table, exhaustive scripted status sequences through the real StatefulExecutor, end-to-end runs with real bash (exit N, kill -9 $$, timeouts, detached).",
        "design_ref": "DESIGN.md §6 C05",
        "note": "Trusted: Lean kernel + 3 standard axioms, the correspondence harness, statement reading. Output acceptance is a Boolean here (C01-C03 cover it). That a signal-killed bash surfaces as Signaled is OS behaviour, sampled end-to-end. Two genuine defects were repaired by fix: commits (fd07654, c9a8c06).",
        "technique": "Lean 4 theorems on an executable model of verdict+executor + differential correspondence (exhaustive table, scripted runner, e2e binary)",
    },
    "C14": {
        "text": "Machine-checked: the limit handed to a runner is min(per-test, remaining document limit), attributed to the document exactly when that is strictly smaller (C14_effective_is_min); on a timeout the test is reported failed/timeout, all later ones skipped, none passed (C14_abort_and_skip); with an honest runner a timeout is reported only if the command ran at least as long as the limit handed (C14_no_spurious) and always when it did (C14_enforced). Tie to code: the real StatefulExecutor with a scripted runner recording the limit it is handed for every per-test x document limit combination, plus wall-clock documents with real sleeps. PARTIAL: wall-clock enforcement itself is runtime behaviour, exercised end-to-end with margins, not proved.",
        "design_ref": "DESIGN.md §6 C14",
        "note": "Partial: the model's clock is arithmetic; that SubprocessRunner stops waiting at the limit, and elapsed-time accounting by Instant, are exercised with real processes only. Defect repaired by fix: 8ad4e6f (per-test limit always won).",
        "technique": "Lean 4 theorems on executor model with honest-runner contract + scripted-runner correspondence + timed e2e runs",
    },
    "C15": {
        "text": "Machine-checked: execution ends as skipped only because a test exited with its own skip code (default 80 or configured) or was reported skipped (C15_skip_cause); a skipped document reports every test skipped, none failed/passed, and is neutral for the exit status (C15_skip_all, C15_others_unaffected); a regularly ending document reports no skipped test, and after a timeout exactly the later tests are skipped (C15_no_spurious_skip, C15_skipped_after_timeout). Tie to code: scripted status sequences with default/custom skip codes through the real StatefulExecutor, end-to-end Markdown and Cram documents.",
        "design_ref": "DESIGN.md §6 C15",
        "note": "As C05. The Cram path (BashScriptExecutor) is modelled for scripts that run to their end (execScript) and compared end-to-end only.",
        "technique": "Lean 4 theorems on executor/result-mapping model + scripted-runner correspondence + e2e binary",
    },
    "C16": {
        "text": "Machine-checked: for each of the 7 scalar keys the effective value is the first of [command line, inline, document defaults, format] that sets it (C16_scalar); for every environment variable the first of [scrut's own, command line, inline, defaults, format] that binds it (C16_env); layering is associative, the empty layer is neutral, prepend/append accumulate (C16_assoc, C16_empty, C16_lists); document keys: command line > front-matter > format (C16_document). The model composes the layers in the order parser, test command and executor do. Tie to code: exhaustive {unset,A,B}^4 per key and all environment overlap patterns through the real functions, random triples for associativity, 108 end-to-end runs observing the effective stream and variable.",
        "design_ref": "DESIGN.md §6 C16",
        "note": "Trusted: kernel + axioms, harness. YAML parsing of layers belongs to C17. Defect repaired by fix: 0b77d2c (defaults' environment won over inline).",
        "technique": "Lean 4 algebraic laws on config-layering model + exhaustive differential correspondence + e2e observation",
    },
    "C20": {
        "text": "Machine-checked: the runner is called once per test case for a prefix 0..k-1 in order, for all of them on a regular end (C20_calls); reported results have strictly increasing indices (at most one per test), exactly one for every non-detached test on the regular path (C20_one_result); exit status is 1 iff a document could not be processed, else 50 iff some outcome is a failure (anything but success/skipped), else 0 (C20_exit_status, C20_failure_kinds); prepend/own/append order (C20_assemble). Tie to code: scripted runner call order in-process; end-to-end runs over 1-3 mixed Markdown/Cram documents with a marker file recording execution order, `-r json` results and the process exit status, incl. unparsable documents.",
        "design_ref": "DESIGN.md §6 C20",
        "note": "As C05. prepend/append via front-matter and -P/-A and directory arguments are exercised end-to-end only (thorough tier).",
        "technique": "Lean 4 theorems on executor/aggregation model + e2e binary correspondence (marker order, json, exit status)",
    },
    "C01": {
        "text": "Machine-checked theorem (Lean 4, no bound on the number of expectations or lines, any rule implementation): a diff without differences yields an in-order, gap-free assignment of lines to expectations respecting every quantifier (C01_no_false_pass). The model is the transliteration of DiffTool::diff; it is tied to the current source on every run by exhaustive differential execution over all quantifier vectors x match matrices up to 3x4 (thorough: 3x5, 4x4) through the real ExpectationMaker/DiffTool, plus random larger cases through all real rule kinds. A DP language-membership oracle on the real code searches for a failing input when anything breaks.",
        "design_ref": "DESIGN.md §6 C01",
        "note": "Trusted: Lean kernel (+propext, Classical.choice, Quot.sound), statement reading, the correspondence harness; the model is hand-written and tied to the code behaviourally, not by translation; rule matching is a parameter (theorem holds for any rule).",
        "technique": "Lean 4 theorem over executable model + differential correspondence (exhaustive small scope) + DP membership oracle",
    },
    "C02": {
        "text": "Machine-checked theorem: for all n, m, quantifiers and matrices the diff mentions every line exactly once in order, expectation indices strictly increasing and in range, every non-optional expectation mentioned, matched entries really match / non-empty / single unless multiline, only non-optional ones unmatched (C02_conservation, from the loop invariant LInv). Termination is the Lean termination proof of the loop. Same correspondence as C01; the direct oracle recomputes the conjuncts (incl. line contents) on the real Diff.",
        "design_ref": "DESIGN.md §6 C02",
        "note": "As C01. Rust index panics are covered by running the real code under catch_unwind on the whole scope, and by the invariant (ms = some s -> ei < n) that justifies the post-loop index; stack/memory limits are not modelled.",
        "technique": "Lean 4 loop-invariant proof + differential correspondence + conservation oracle",
    },
    "C03": {
        "text": "Machine-checked theorems: under one-line-lookahead determinism (Det) NFA acceptance implies no differences (C03_complete), hence hasDiff = false <-> Assignment (C03_iff); every quantifier-free list is deterministic and its own lines pass (C03_own_lines); the determinism hypothesis is necessary (greedy_incomplete_witness). Same correspondence as C01; the oracle computes Det and membership independently on the real result.",
        "design_ref": "DESIGN.md §6 C03",
        "note": "As C01. Det is the formalisation of 'at most one of the expectations that could legally come next matches the current line'.",
        "technique": "Lean 4 theorem (simulation of the deterministic NFA by the greedy loop) + differential correspondence + Det/membership oracle",
    },
}

WIP = "not yet claimed: model, theorems and correspondence for this property are still being built (see DESIGN.md §11); nothing is asserted about it"
NOT_APPLICABLE = [{"property_id": "C%02d" % i, "reason": WIP} for i in range(1, 21) if "C%02d" % i not in PROPS]
