#!/usr/bin/env python3
"""Writes MANIFEST.json from props_table.py (kept in sync by construction)."""
import json, os, sys
sys.path.insert(0, os.path.dirname(os.path.abspath(__file__)))
from props_table import PROPS, MANIFEST_TEXT, NOT_APPLICABLE, PENDING
checks = []
for pid in sorted(PROPS):
    if pid in PENDING:
        continue
    t = MANIFEST_TEXT[pid]
    checks.append({
        "property_id": pid,
        "quick_cmd": "./check %s --tier quick" % pid,
        "thorough_cmd": "./check %s --tier thorough" % pid,
        "evidence_file": "/verif/evidence/%s.json" % pid,
        "replay_cmd_template": "./check %s --replay {path}" % pid,
        "engine": "lean4-proof+correspondence",
        "level_claimed": {"category": "proof", "text": t["text"], "design_ref": t["design_ref"]},
        "level_note": t["note"],
        "technique": t["technique"],
    })
m = {
    "version": 1,
    "setup_cmd": "./setup.sh",
    "hooks": {
        "guard": "scrut_verif",
        "enable": "no hooks are needed: the harness uses scrut's public API and the built binary (RUSTFLAGS='--cfg scrut_verif' would enable hooks if any existed)",
        "baseline_off_cmd": "cd /repo && cargo test --workspace --no-fail-fast --offline",
        "source_commits": [],
        "add_only": True,
    },
    "engines": [{
        "name": "lean4-proof+correspondence",
        "path": "/verif/check",
        "serves_properties": sorted(p for p in PROPS if p not in PENDING),
        "kind_free_text": "Lean 4 theorems about a hand-written executable model (lean/ScrutModel), tied to /repo's current tree on every run by a differential correspondence harness (harness/) that drives the real scrut code and the compiled Lean model on the same cases, plus direct property oracles on the real code for the failing-input search",
    }],
    "checks": checks,
    "not_applicable": NOT_APPLICABLE,
    "notes": "See DESIGN.md. Unclaimed properties are listed under not_applicable with the reason (work in progress is said so).",
}
json.dump(m, open(os.path.join(os.path.dirname(os.path.abspath(__file__)), "MANIFEST.json"), "w"), indent=1)
print("MANIFEST.json:", len(checks), "checks,", len(NOT_APPLICABLE), "not_applicable")
